"""Independent secp256k1 arithmetic (SEC2 parameters), ECDSA verify (SEC1 4.1.4), strict DER (BIP66).
stdlib only; never imports bitcoinlib."""
import hashlib

P = 2 ** 256 - 2 ** 32 - 977
N = 0xFFFFFFFFFFFFFFFFFFFFFFFFFFFFFFFEBAAEDCE6AF48A03BBFD25E8CD0364141
GX = 0x79BE667EF9DCBBAC55A06295CE870B07029BFCDB2DCE28D959F2815B16F81798
GY = 0x483ADA7726A3C4655DA4FBFC0E1108A8FD17B448A68554199C47D08FFB10D4B8
G = (GX, GY)
INF = (0, 1, 0)


def jdbl(pt):
    X, Y, Z = pt
    if not Z or not Y:
        return INF
    YY = Y * Y % P
    S = 4 * X * YY % P
    M = 3 * X * X % P
    X2 = (M * M - 2 * S) % P
    return (X2, (M * (S - X2) - 8 * YY * YY) % P, 2 * Y * Z % P)


def jadd(p1, p2):
    if not p1[2]:
        return p2
    if not p2[2]:
        return p1
    X1, Y1, Z1 = p1
    X2, Y2, Z2 = p2
    Z1Z1 = Z1 * Z1 % P
    Z2Z2 = Z2 * Z2 % P
    U1 = X1 * Z2Z2 % P
    U2 = X2 * Z1Z1 % P
    S1 = Y1 * Z2 * Z2Z2 % P
    S2 = Y2 * Z1 * Z1Z1 % P
    if U1 == U2:
        if S1 != S2:
            return INF
        return jdbl(p1)
    H = (U2 - U1) % P
    R = (S2 - S1) % P
    HH = H * H % P
    HHH = H * HH % P
    V = U1 * HH % P
    X3 = (R * R - HHH - 2 * V) % P
    return (X3, (R * (V - X3) - S1 * HHH) % P, H * Z1 * Z2 % P)


def to_affine(pt):
    if not pt[2]:
        return None
    zi = pow(pt[2], -1, P)
    zi2 = zi * zi % P
    return (pt[0] * zi2 % P, pt[1] * zi2 * zi % P)


def mul(k, pt=G):
    """k * pt for an affine point (or None = infinity); returns affine point or None."""
    if pt is None:
        return None
    k %= N
    R = INF
    Q = (pt[0], pt[1], 1)
    while k:
        if k & 1:
            R = jadd(R, Q)
        Q = jdbl(Q)
        k >>= 1
    return to_affine(R)


def add(p1, p2):
    if p1 is None:
        return p2
    if p2 is None:
        return p1
    return to_affine(jadd((p1[0], p1[1], 1), (p2[0], p2[1], 1)))


# 4-bit fixed window table for G (speeds up k*G about 4x)
_GTAB = None


def _gtab():
    global _GTAB
    if _GTAB is None:
        tab = []
        base = (GX, GY, 1)
        for _ in range(64):
            row = [INF]
            acc = INF
            for _j in range(15):
                acc = jadd(acc, base)
                row.append(acc)
            # normalise row to affine-with-Z=1 to make additions cheaper is not needed; keep jacobian
            tab.append(row)
            for _j in range(4):
                base = jdbl(base)
        _GTAB = tab
    return _GTAB


def mul_g(k):
    k %= N
    tab = _gtab()
    R = INF
    i = 0
    while k:
        d = k & 15
        if d:
            R = jadd(R, tab[i][d])
        k >>= 4
        i += 1
    return to_affine(R)


def on_curve(pt):
    if pt is None:
        return False
    x, y = pt
    return 0 <= x < P and 0 <= y < P and (y * y - x * x * x - 7) % P == 0


def lift_x(x, odd):
    """Point with abscissa x and y parity `odd`, or None when x is not on the curve."""
    if not 0 <= x < P:
        return None
    y2 = (pow(x, 3, P) + 7) % P
    y = pow(y2, (P + 1) // 4, P)
    if y * y % P != y2:
        return None
    if (y & 1) != (1 if odd else 0):
        y = P - y
    return (x, y)


def decode_pub(b):
    """SEC1 octet string -> point, or None when it is not a valid public key encoding."""
    b = bytes(b)
    if len(b) == 33 and b[0] in (2, 3):
        return lift_x(int.from_bytes(b[1:], 'big'), b[0] == 3)
    if len(b) == 65 and b[0] == 4:
        pt = (int.from_bytes(b[1:33], 'big'), int.from_bytes(b[33:], 'big'))
        return pt if on_curve(pt) else None
    return None


def encode_pub(pt, compressed=True):
    x, y = pt
    if compressed:
        return bytes([2 + (y & 1)]) + x.to_bytes(32, 'big')
    return b'\x04' + x.to_bytes(32, 'big') + y.to_bytes(32, 'big')


def pub_from_secret(d, compressed=True):
    return encode_pub(mul_g(d), compressed)


def ecdsa_verify(z, r, s, pub_pt):
    """Standard ECDSA verification of integer digest z (already reduced from 32 bytes, big endian)."""
    if pub_pt is None or not on_curve(pub_pt):
        return False
    if not (1 <= r < N and 1 <= s < N):
        return False
    w = pow(s, -1, N)
    u1 = z * w % N
    u2 = r * w % N
    a = mul_g(u1)
    b = mul(u2, pub_pt)
    R = add(a, b)
    if R is None:
        return False
    return R[0] % N == r


def ecdsa_sign_with_k(z, d, k):
    """Textbook signature with explicit nonce (used to build verifier test triples)."""
    R = mul_g(k)
    r = R[0] % N
    s = pow(k, -1, N) * (z + r * d) % N
    return r, s


def der_parse_strict(sig):
    """BIP66 strict DER of r,s (no hash-type byte) -> (r, s) or None."""
    sig = bytes(sig)
    if len(sig) < 8 or len(sig) > 72:
        return None
    if sig[0] != 0x30 or sig[1] != len(sig) - 2:
        return None
    if sig[2] != 0x02:
        return None
    lr = sig[3]
    if lr == 0 or 5 + lr >= len(sig):
        return None
    if sig[4 + lr] != 0x02:
        return None
    ls = sig[5 + lr]
    if ls == 0 or lr + ls + 6 != len(sig):
        return None
    rb = sig[4:4 + lr]
    sb = sig[6 + lr:]
    for b in (rb, sb):
        if b[0] & 0x80:
            return None
        if len(b) > 1 and b[0] == 0 and not (b[1] & 0x80):
            return None
    return int.from_bytes(rb, 'big'), int.from_bytes(sb, 'big')


def der_encode(r, s):
    def enc(v):
        b = v.to_bytes((v.bit_length() + 7) // 8 or 1, 'big')
        if b[0] & 0x80:
            b = b'\x00' + b
        return b'\x02' + bytes([len(b)]) + b
    body = enc(r) + enc(s)
    return b'\x30' + bytes([len(body)]) + body


def sha256(b):
    return hashlib.sha256(b).digest()


def dsha256(b):
    return sha256(sha256(b))


def ripemd160(b):
    return hashlib.new('ripemd160', b).digest()


def hash160(b):
    return ripemd160(sha256(b))


def selfcheck():
    assert on_curve(G)
    two = mul(2)
    assert two == (0xC6047F9441ED7D6D3045406E95C07CD85C778E4B8CEF3CA7ABAC09B95C709EE5,
                   0x1AE168FEA63DC339A3C58419466CEAEEF7F632653266D0E1236431A950CFE52A)
    assert mul_g(2) == two
    nm1 = mul_g(N - 1)
    assert nm1 == (GX, P - GY)
    assert mul(N - 1) == nm1
    assert mul_g(N) is None
    k = 0x1234567890abcdef1234567890abcdef1234567890abcdef1234567890abcdef
    assert mul_g(k) == mul(k)
    d, z, kk = 0xdeadbeef, 0xabcdef, 0x424242
    r, s = ecdsa_sign_with_k(z, d, kk)
    assert ecdsa_verify(z, r, s, mul_g(d)) and not ecdsa_verify(z + 1, r, s, mul_g(d))
    assert ecdsa_verify(z, r, N - s, mul_g(d))
    assert der_parse_strict(der_encode(r, s)) == (r, s)
    assert decode_pub(encode_pub(two)) == two and decode_pub(encode_pub(two, False)) == two
    assert hash160(b'') == bytes.fromhex('b472a266d0bd89c13706a4132ccfb16f7c3b9fcb')
    return True
