"""BIP38 reference (passphrase-protected private keys), written from the BIP text.

stdlib (hashlib.scrypt, unicodedata) + AES-256-ECB from pycryptodome + vf.refs.secp256k1 / codec. Never imports
bitcoinlib. Passphrases are NFC-normalised and utf-8 encoded as the BIP prescribes; `normalize=False` gives the raw
utf-8 bytes (used by property modules to *recognise* an implementation that skips the normalisation).

Non-EC-multiplied:
    encrypt(secret32, compressed, passphrase, address) -> '6P...'
    decrypt(enc, passphrase, address_fn)               -> (secret32, compressed)     raises Bip38Error
EC-multiplied:
    intermediate_code(passphrase, owner_salt, lot=None, sequence=None) -> 'passphrase...'
    generate(intermediate, seedb24, compressed, address_fn)  -> dict(encrypted, confirmation, address, pubkey, factorb)
    decrypt(...) handles both kinds; decrypt_info(...) also returns lot/sequence/seedb
    confirm(confirmation_code, passphrase, address_fn) -> address
`address` / `address_fn(pubkey_bytes) -> str` : the address string whose double-SHA256 prefix salts the key. The BIP
defines it as the (P2PKH) Bitcoin address; other networks substitute their own P2PKH version byte (see p2pkh_fn).
"""
import hashlib
import unicodedata

from Crypto.Cipher import AES

from vf.refs import secp256k1 as ec
from vf.refs import codec

MAGIC_LOT = bytes.fromhex('2ce9b3e1ff39e251')
MAGIC_NOLOT = bytes.fromhex('2ce9b3e1ff39e253')
PREFIX_NOEC = b'\x01\x42'
PREFIX_EC = b'\x01\x43'
PREFIX_CONF = bytes.fromhex('643bf6a89a')


class Bip38Error(ValueError):
    pass


def pw_bytes(passphrase, normalize=True):
    if isinstance(passphrase, bytes):
        return passphrase
    if normalize:
        passphrase = unicodedata.normalize('NFC', passphrase)
    return passphrase.encode('utf-8')


def scrypt(pw, salt, n, r, p, dklen):
    return hashlib.scrypt(pw, salt=salt, n=n, r=r, p=p, dklen=dklen, maxmem=128 * 1024 * 1024)


def _xor(a, b):
    return bytes(x ^ y for x, y in zip(a, b))


def _aes_enc(key, block):
    return AES.new(key, AES.MODE_ECB).encrypt(block)


def _aes_dec(key, block):
    return AES.new(key, AES.MODE_ECB).decrypt(block)


def addresshash(address):
    return ec.dsha256(address.encode('ascii') if isinstance(address, str) else address)[:4]


def p2pkh_fn(version_byte):
    """address_fn for a network whose P2PKH version byte is `version_byte` (bytes of length 1)."""
    def fn(pub):
        return codec.b58check_encode(bytes(version_byte) + ec.hash160(pub))
    return fn


BITCOIN = p2pkh_fn(b'\x00')


# ------------------------------------------------------------------------------------------ non-EC-multiplied
def encrypt(secret32, compressed, passphrase, address=None, address_fn=BITCOIN, normalize=True):
    secret32 = bytes(secret32)
    assert len(secret32) == 32
    if address is None:
        address = address_fn(ec.pub_from_secret(int.from_bytes(secret32, 'big'), compressed))
    ah = addresshash(address)
    d = scrypt(pw_bytes(passphrase, normalize), ah, 16384, 8, 8, 64)
    dh1, dh2 = d[:32], d[32:]
    e1 = _aes_enc(dh2, _xor(secret32[:16], dh1[:16]))
    e2 = _aes_enc(dh2, _xor(secret32[16:], dh1[16:]))
    flag = 0xc0 | (0x20 if compressed else 0)
    return codec.b58check_encode(PREFIX_NOEC + bytes([flag]) + ah + e1 + e2)


def parse(enc):
    """-> dict(kind='noec'|'ec', flag, addresshash, ...) ; raises Bip38Error on anything malformed."""
    raw = codec.b58check_decode(enc)
    if raw is None or len(raw) != 39:
        raise Bip38Error('not a 39-byte Base58Check payload')
    pre, flag, ah = raw[:2], raw[2], raw[3:7]
    if pre == PREFIX_NOEC:
        if flag not in (0xc0, 0xe0):
            raise Bip38Error('flag byte')
        return {'kind': 'noec', 'flag': flag, 'compressed': bool(flag & 0x20), 'addresshash': ah,
                'e1': raw[7:23], 'e2': raw[23:39]}
    if pre == PREFIX_EC:
        if flag & 0xc0 or flag & 0x1b:
            raise Bip38Error('flag byte')
        return {'kind': 'ec', 'flag': flag, 'compressed': bool(flag & 0x20), 'haslot': bool(flag & 0x04),
                'addresshash': ah, 'ownerentropy': raw[7:15], 'e1a': raw[15:23], 'e2': raw[23:39]}
    raise Bip38Error('prefix')


def _passfactor(passphrase, ownerentropy, haslot, normalize=True):
    salt = ownerentropy[:4] if haslot else ownerentropy
    pre = scrypt(pw_bytes(passphrase, normalize), salt, 16384, 8, 8, 32)
    pf = ec.dsha256(pre + ownerentropy) if haslot else pre
    v = int.from_bytes(pf, 'big')
    if not 0 < v < ec.N:
        raise Bip38Error('passfactor out of range')
    return v


def decrypt_info(enc, passphrase, address_fn=BITCOIN, normalize=True):
    f = parse(enc)
    if f['kind'] == 'noec':
        d = scrypt(pw_bytes(passphrase, normalize), f['addresshash'], 16384, 8, 8, 64)
        dh1, dh2 = d[:32], d[32:]
        secret = _xor(_aes_dec(dh2, f['e1']), dh1[:16]) + _xor(_aes_dec(dh2, f['e2']), dh1[16:])
        k = int.from_bytes(secret, 'big')
        if not 0 < k < ec.N:
            raise Bip38Error('wrong passphrase (secret out of range)')
        addr = address_fn(ec.pub_from_secret(k, f['compressed']))
        if addresshash(addr) != f['addresshash']:
            raise Bip38Error('wrong passphrase (address hash)')
        return {'secret': secret, 'compressed': f['compressed'], 'kind': 'noec', 'address': addr, 'lot': None,
                'sequence': None, 'seedb': None}
    oe = f['ownerentropy']
    passfactor = _passfactor(passphrase, oe, f['haslot'], normalize)
    passpoint = ec.encode_pub(ec.mul_g(passfactor), True)
    d = scrypt(passpoint, f['addresshash'] + oe, 1024, 1, 1, 64)
    dh1, dh2 = d[:32], d[32:]
    p2 = _xor(_aes_dec(dh2, f['e2']), dh1[16:])                # encryptedpart1[8:16] + seedb[16:24]
    e1 = f['e1a'] + p2[:8]
    seedb = _xor(_aes_dec(dh2, e1), dh1[:16]) + p2[8:]
    factorb = int.from_bytes(ec.dsha256(seedb), 'big')
    if not 0 < factorb < ec.N:
        raise Bip38Error('factorb out of range')
    k = passfactor * factorb % ec.N
    if k == 0:
        raise Bip38Error('zero key')
    addr = address_fn(ec.pub_from_secret(k, f['compressed']))
    if addresshash(addr) != f['addresshash']:
        raise Bip38Error('wrong passphrase (address hash)')
    lot = seq = None
    if f['haslot']:
        v = int.from_bytes(oe[4:], 'big')
        lot, seq = v >> 12, v & 0xfff
    return {'secret': k.to_bytes(32, 'big'), 'compressed': f['compressed'], 'kind': 'ec', 'address': addr,
            'lot': lot, 'sequence': seq, 'seedb': seedb}


def decrypt(enc, passphrase, address_fn=BITCOIN, normalize=True):
    r = decrypt_info(enc, passphrase, address_fn, normalize)
    return r['secret'], r['compressed']


# ---------------------------------------------------------------------------------------------- EC-multiplied
def intermediate_code(passphrase, owner_salt, lot=None, sequence=None, normalize=True):
    owner_salt = bytes(owner_salt)
    haslot = lot is not None
    if haslot:
        if not (0 <= lot <= 1048575 and 0 <= sequence <= 4095):
            raise Bip38Error('lot/sequence range')
        oe = owner_salt[:4] + (lot * 4096 + sequence).to_bytes(4, 'big')
    else:
        if len(owner_salt) != 8:
            raise Bip38Error('owner salt must be 8 bytes')
        oe = owner_salt
    pf = _passfactor(passphrase, oe, haslot, normalize)
    return codec.b58check_encode((MAGIC_LOT if haslot else MAGIC_NOLOT) + oe + ec.encode_pub(ec.mul_g(pf), True))


def ec_plan(passphrase, owner_salt, lot, sequence, seedb, compressed, address_fn=BITCOIN, normalize=True):
    """Everything about one EC-multiplied key with a single expensive scrypt: intermediate code, encrypted key,
    confirmation code, address and the private key the owner of the passphrase will recover."""
    owner_salt = bytes(owner_salt)
    haslot = lot is not None
    oe = owner_salt[:4] + (lot * 4096 + sequence).to_bytes(4, 'big') if haslot else owner_salt
    if len(oe) != 8:
        raise Bip38Error('owner salt length')
    pf = _passfactor(passphrase, oe, haslot, normalize)
    code = codec.b58check_encode((MAGIC_LOT if haslot else MAGIC_NOLOT) + oe + ec.encode_pub(ec.mul_g(pf), True))
    g = generate(code, seedb, compressed, address_fn)
    g['intermediate'] = code
    g['secret'] = (pf * g['factorb'] % ec.N).to_bytes(32, 'big')
    assert ec.pub_from_secret(pf * g['factorb'] % ec.N, compressed) == g['pubkey']
    return g


def parse_intermediate(code):
    raw = codec.b58check_decode(code)
    if raw is None or len(raw) != 49 or raw[:8] not in (MAGIC_LOT, MAGIC_NOLOT):
        raise Bip38Error('intermediate code')
    pt = ec.decode_pub(raw[16:])
    if pt is None:
        raise Bip38Error('passpoint')
    return {'haslot': raw[:8] == MAGIC_LOT, 'ownerentropy': raw[8:16], 'passpoint': raw[16:], 'point': pt}


def generate(code, seedb, compressed, address_fn=BITCOIN):
    seedb = bytes(seedb)
    assert len(seedb) == 24
    ic = parse_intermediate(code)
    flag = (0x20 if compressed else 0) | (0x04 if ic['haslot'] else 0)
    factorb = int.from_bytes(ec.dsha256(seedb), 'big')
    if not 0 < factorb < ec.N:
        raise Bip38Error('factorb out of range')
    pub = ec.encode_pub(ec.mul(factorb, ic['point']), compressed)
    addr = address_fn(pub)
    ah = addresshash(addr)
    oe = ic['ownerentropy']
    d = scrypt(ic['passpoint'], ah + oe, 1024, 1, 1, 64)
    dh1, dh2 = d[:32], d[32:]
    e1 = _aes_enc(dh2, _xor(seedb[:16], dh1[:16]))
    e2 = _aes_enc(dh2, _xor(e1[8:] + seedb[16:], dh1[16:]))
    enc = codec.b58check_encode(PREFIX_EC + bytes([flag]) + ah + oe + e1[:8] + e2)
    pointb = ec.encode_pub(ec.mul_g(factorb), True)
    pbprefix = bytes([pointb[0] ^ (dh2[31] & 1)])
    pbx1 = _aes_enc(dh2, _xor(pointb[1:17], dh1[:16]))
    pbx2 = _aes_enc(dh2, _xor(pointb[17:], dh1[16:]))
    conf = codec.b58check_encode(PREFIX_CONF + bytes([flag]) + ah + oe + pbprefix + pbx1 + pbx2)
    return {'encrypted': enc, 'confirmation': conf, 'address': addr, 'pubkey': pub, 'factorb': factorb}


def confirm(conf, passphrase, address_fn=BITCOIN, normalize=True):
    raw = codec.b58check_decode(conf)
    if raw is None or len(raw) != 51 or raw[:5] != PREFIX_CONF:
        raise Bip38Error('confirmation code')
    flag, ah, oe, epb = raw[5], raw[6:10], raw[10:18], raw[18:51]
    pf = _passfactor(passphrase, oe, bool(flag & 0x04), normalize)
    passpoint = ec.encode_pub(ec.mul_g(pf), True)
    d = scrypt(passpoint, ah + oe, 1024, 1, 1, 64)
    dh1, dh2 = d[:32], d[32:]
    pointb = bytes([epb[0] ^ (dh2[31] & 1)]) + _xor(_aes_dec(dh2, epb[1:17]), dh1[:16]) + _xor(_aes_dec(dh2, epb[17:]), dh1[16:])
    pt = ec.decode_pub(pointb)
    if pt is None:
        raise Bip38Error('wrong passphrase (pointb)')
    addr = address_fn(ec.encode_pub(ec.mul(pf, pt), bool(flag & 0x20)))
    if addresshash(addr) != ah:
        raise Bip38Error('wrong passphrase (address hash)')
    return addr


# ------------------------------------------------------------------------------------------------- self-check
def _wif_secret(wif):
    raw = codec.b58check_decode(wif)
    assert raw is not None and raw[0] == 0x80 and len(raw) in (33, 34)
    return raw[1:33], len(raw) == 34


# BIP38 "Test vectors" section. (passphrase, encrypted, wif)
_NOEC = [
    ('TestingOneTwoThree', '6PRVWUbkzzsbcVac2qwfssoUJAN1Xhrg6bNk8J7Nzm5H7kxEbn2Nh2ZoGg', '5KN7MzqK5wt2TP1fQCYyHBtDrXdJuXbUzm4A9rKAteGu3Qi5CVR'),
    ('Satoshi', '6PRNFFkZc2NZ6dJqFfhRoFNMR9Lnyj7dYGrzdgXXVMXcxoKTePPX1dWByq', '5HtasZ6ofTHP6HCwTqTkLDuLQisYPah7aUnSKfC7h4hMUVw2gi5'),
    # passphrase GREEK UPSILON WITH HOOK, COMBINING ACUTE ACCENT, NULL, DESERET CAPITAL LETTER LONG I, PILE OF POO
    ('\u03d2\u0301\u0000\U00010400\U0001f4a9', '6PRW5o9FLp4gJDDVqJQKJFTpMvdsSGJxMYHtHaQBF3ooa8mwD69bapcDQn', '5Jajm8eQ22H3pGWLEVCXyvND8dQZhiQhoLJNKjYXk9roUFTMSZ4'),
    ('TestingOneTwoThree', '6PYNKZ1EAgYgmQfmNVamxyXVWHzK5s6DGhwP4J5o44cvXdoY7sRzhtpUeo', 'L44B5gGEpqEDRS9vVPz7QT35jcBG2r3CZwSwQ4fCewXAhAhqGVpP'),
    ('Satoshi', '6PYLtMnXvfG3oJde97zRyLYFZCYizPU5T3LwgdYJz1fRhh16bU7u6PPmY7', 'KwYgW8gcxj1JWJXhPSu4Fqwzfhp5Yfi42mdYmMa4XqK7NJxXUSK7'),
]
# (passphrase, intermediate code, encrypted, address, wif, confirmation, lot, sequence)
_EC = [
    ('TestingOneTwoThree', 'passphrasepxFy57B9v8HtUsszJYKReoNDV6VHjUSGt8EVJmux9n1J3Ltf1gRxyDGXqnf9qm',
     '6PfQu77ygVyJLZjfvMLyhLMQbYnu5uguoJJ4kMCLqWwPEdfpwANVS76gTX', '1PE6TQi6HTVNz5DLwB1LcpMBALubfuN2z2',
     '5K4caxezwjGCGfnoPTZ8tMcJBLB7Jvyjv4xxeacadhq8nLisLR2', None, None, None),
    ('Satoshi', 'passphraseoRDGAXTWzbp72eVbtUDdn1rwpgPUGjNZEc6CGBo8i5EC1FPW8wcnLdq4ThKzAS',
     '6PfLGnQs6VZnrNpmVKfjotbnQuaJK4KZoPFrAjx1JMJUa1Ft8gnf5WxfKd', '1CqzrtZC6mXSAhoxtFwVjz8LtwLJjDYU3V',
     '5KJ51SgxWaAYR13zd9ReMhJpwrcX47xTJh2D3fGPG9CM8vkv5sH', None, None, None),
    ('MOLON LABE', 'passphraseaB8feaLQDENqCgr4gKZpmf4VoaT6qdjJNJiv7fsKvjqavcJxvuR1hy25aTu5sX',
     '6PgNBNNzDkKdhkT6uJntUXwwzQV8Rr2tZcbkDcuC9DZRsS6AtHts4Ypo1j', '1Jscj8ALrYu2y9TD8NrpvDBugPedmbj4Yh',
     '5JLdxTtcTHcfYcmJsNVy1v2PMDx432JPoYcBTVVRHpPaxUrdtf8',
     'cfrm38V8aXBn7JWA1ESmFMUn6erxeBGZGAxJPY4e36S9QWkzZKtaVqLNMgnifETYw7BPwWC9aPD', 263183, 1),
    ('\u039c\u039f\u039b\u03a9\u039d \u039b\u0391\u0392\u0395', 'passphrased3z9rQJHSyBkNBwTRPkUGNVEVrUAcfAXDyRU1V28ie6hNFbqDwbFBvsTK7yWVK',
     '6PgGWtx25kUg8QWvwuJAgorN6k9FbE25rv5dMRwu5SKMnfpfVe5mar2ngH', '1Lurmih3KruL4xDB5FmHof38yawNtP9oGf',
     '5KMKKuUmAkiNbA3DazMQiLfDq47qs8MAEThm4yL8R2PhV1ov33D',
     # the BIP text prints this code with a stray trailing 'T' (75 characters; fails its own Base58Check)
     'cfrm38V8G4qq2ywYEFfWLD5Cc6msj9UwsG2Mj4Z6QdGJAFQpdatZLavkgRd1i4iBMdRngDqDs51', 806938, 1),
]

_checked = {}


def selfcheck(repo_vectors=None, full=True):
    """~14 scrypt evaluations (about 1 s) when full; the result is cached per process."""
    if _checked.get((full, repo_vectors is not None)):
        return True
    ec.selfcheck()
    # scrypt: RFC 7914 section 12 vector 2
    assert scrypt(b'password', b'NaCl', 1024, 8, 16, 64).hex().startswith('fdbabe1c9d3472007856e7190d01e9fe7c6ad7cbc8237830e77376634b373162')
    # AES-256: FIPS-197 appendix C.3
    k = bytes(range(32))
    assert _aes_enc(k, bytes.fromhex('00112233445566778899aabbccddeeff')).hex() == '8ea2b7ca516745bfeafc49904b496089'
    assert pw_bytes(_NOEC[2][0]).hex() == 'cf9300f0909080f09f92a9'
    for pw, enc, wif in (_NOEC if full else _NOEC[2:4]):
        sec, comp = _wif_secret(wif)
        assert encrypt(sec, comp, pw) == enc, 'non-EC encrypt vector %s' % enc
        assert decrypt(enc, pw) == (sec, comp), 'non-EC decrypt vector %s' % enc
    try:
        decrypt(_NOEC[0][1], 'TestingOneTwoThreE')
        raise AssertionError('wrong passphrase accepted')
    except Bip38Error:
        pass
    for pw, code, enc, addr, wif, conf, lot, seq in (_EC if full else _EC[1:3]):
        sec, comp = _wif_secret(wif)
        r = decrypt_info(enc, pw)
        assert (r['secret'], r['compressed'], r['address'], r['lot'], r['sequence']) == (sec, comp, addr, lot, seq), 'EC decrypt vector %s' % enc
        ic = parse_intermediate(code)
        assert intermediate_code(pw, ic['ownerentropy'], lot, seq) == code, 'intermediate code vector %s' % code
        g = generate(code, r['seedb'], comp)
        assert g['encrypted'] == enc and g['address'] == addr, 'EC generate vector %s' % enc
        if conf:
            assert g['confirmation'] == conf, 'confirmation code vector'
            assert confirm(conf, pw) == addr
    if repo_vectors is not None:
        n = 0
        for v in repo_vectors.get('valid', []):
            sec, comp = _wif_secret(v['wif'])
            assert decrypt(v['bip38'], v['passphrase']) == (sec, comp)
            if 'passphrase_code' not in v:
                assert encrypt(sec, comp, v['passphrase']) == v['bip38']
            n += 1
        assert n >= 5
    _checked[(full, repo_vectors is not None)] = True
    return True
