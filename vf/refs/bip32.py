"""BIP32 reference (CKDpriv, CKDpub, serialization). stdlib only."""
import hmac
import hashlib

from vf.refs import secp256k1 as ec
from vf.refs import codec

HARD = 0x80000000


class XKey:
    __slots__ = ('secret', 'point', 'chain', 'depth', 'parent_fp', 'child')

    def __init__(self, secret, point, chain, depth=0, parent_fp=b'\0\0\0\0', child=0):
        self.secret = secret      # int or None
        self.point = point        # affine tuple
        self.chain = chain        # 32 bytes
        self.depth = depth
        self.parent_fp = parent_fp
        self.child = child

    @property
    def pub(self):
        return ec.encode_pub(self.point, True)

    @property
    def fingerprint(self):
        return ec.hash160(self.pub)[:4]

    def neuter(self):
        return XKey(None, self.point, self.chain, self.depth, self.parent_fp, self.child)

    def serialize(self, version4, private=None):
        if private is None:
            private = self.secret is not None
        keydata = (b'\0' + self.secret.to_bytes(32, 'big')) if private else self.pub
        raw = bytes(version4) + bytes([self.depth & 0xff]) + self.parent_fp + self.child.to_bytes(4, 'big') + self.chain + keydata
        return codec.b58check_encode(raw)


def master(seed):
    I = hmac.new(b'Bitcoin seed', bytes(seed), hashlib.sha512).digest()
    k = int.from_bytes(I[:32], 'big')
    if k == 0 or k >= ec.N:
        raise ValueError('invalid master')
    return XKey(k, ec.mul_g(k), I[32:])


def ckd_priv(x, i):
    if x.secret is None:
        raise ValueError('no private key')
    if i >= HARD:
        data = b'\0' + x.secret.to_bytes(32, 'big') + i.to_bytes(4, 'big')
    else:
        data = x.pub + i.to_bytes(4, 'big')
    I = hmac.new(x.chain, data, hashlib.sha512).digest()
    il = int.from_bytes(I[:32], 'big')
    k = (il + x.secret) % ec.N
    if il >= ec.N or k == 0:
        raise ValueError('invalid child')
    return XKey(k, ec.mul_g(k), I[32:], x.depth + 1, x.fingerprint, i)


def ckd_pub(x, i):
    if i >= HARD:
        raise ValueError('hardened from public')
    I = hmac.new(x.chain, x.pub + i.to_bytes(4, 'big'), hashlib.sha512).digest()
    il = int.from_bytes(I[:32], 'big')
    pt = ec.add(ec.mul_g(il), x.point)
    if il >= ec.N or pt is None:
        raise ValueError('invalid child')
    return XKey(None, pt, I[32:], x.depth + 1, x.fingerprint, i)


def derive(x, path):
    """path: list of ints (hardened ones already carry the 0x80000000 bit)."""
    for i in path:
        x = ckd_priv(x, i) if x.secret is not None else ckd_pub(x, i)
    return x


def parse_path(s):
    """'m/44'/0h/1' -> [ints]; accepts ' h H p P markers."""
    out = []
    for el in s.split('/'):
        if el in ('m', 'M', ''):
            continue
        hard = el[-1] in "'hHpP"
        n = int(el[:-1] if hard else el)
        out.append(n + HARD if hard else n)
    return out


def deserialize(s):
    """-> (version4, XKey) or None (Base58Check + structural checks of BIP32)."""
    raw = codec.b58check_decode(s)
    if raw is None or len(raw) != 78:
        return None
    ver, depth, fp, child, chain, kd = raw[:4], raw[4], raw[5:9], int.from_bytes(raw[9:13], 'big'), raw[13:45], raw[45:]
    if kd[0] == 0:
        k = int.from_bytes(kd[1:], 'big')
        if not 1 <= k < ec.N:
            return None
        return ver, XKey(k, ec.mul_g(k), chain, depth, fp, child)
    pt = ec.decode_pub(kd)
    if pt is None:
        return None
    return ver, XKey(None, pt, chain, depth, fp, child)


def selfcheck():
    XPRV = bytes.fromhex('0488ADE4')
    XPUB = bytes.fromhex('0488B21E')
    m = master(bytes.fromhex('000102030405060708090a0b0c0d0e0f'))
    assert m.serialize(XPRV) == 'xprv9s21ZrQH143K3QTDL4LXw2F7HEK3wJUD2nW2nRk4stbPy6cq3jPPqjiChkVvvNKmPGJxWUtg6LnF5kejMRNNU3TGtRBeJgk33yuGBxrMPHi'
    assert m.serialize(XPUB, False) == 'xpub661MyMwAqRbcFtXgS5sYJABqqG9YLmC4Q1Rdap9gSE8NqtwybGhePY2gZ29ESFjqJoCu1Rupje8YtGqsefD265TMg7usUDFdp6W1EGMcet8'
    c = derive(m, parse_path("m/0'/1/2'/2/1000000000"))
    assert c.serialize(XPRV) == 'xprvA41z7zogVVwxVSgdKUHDy1SKmdb533PjDz7J6N6mV6uS3ze1ai8FHa8kmHScGpWmj4WggLyQjgPie1rFSruoUihUZREPSL39UNdE3BBDu76'
    assert c.serialize(XPUB, False) == 'xpub6H1LXWLaKsWFhvm6RVpEL9P4KfRZSW7abD2ttkWP3SSQvnyA8FSVqNTEcYFgJS2UaFcxupHiYkro49S8yGasTvXEYBVPamhGW6cFJodrTHy'
    m2 = master(bytes.fromhex('fffcf9f6f3f0edeae7e4e1dedbd8d5d2cfccc9c6c3c0bdbab7b4b1aeaba8a5a29f9c999693908d8a8784817e7b7875726f6c696663605d5a5754514e4b484542'))
    c2 = derive(m2, parse_path("m/0/2147483647'/1/2147483646'/2"))
    assert c2.serialize(XPUB, False) == 'xpub6FnCn6nSzZAw5Tw7cgR9bi15UV96gLZhjDstkXXxvCLsUXBGXPdSnLFbdpq8p9HmGsApME5hQTZ3emM2rnY5agb9rXpVGyy3bdW6EEgAtqt'
    # public derivation commutes
    a = derive(m, parse_path("m/0'"))
    assert ckd_pub(a.neuter(), 1).point == ckd_priv(a, 1).point
    # TV3 leading zeros
    m3 = master(bytes.fromhex('4b381541583be4423346c643850da4b320e46a87ae3d2a4e6da11eba819cd4acba45d239319ac14f863b8d5ab5a0d0c64d2e8a1e7d1457df2e5a3c51c73235be'))
    assert derive(m3, [HARD]).serialize(XPRV) == 'xprv9uPDJpEQgRQfDcW7BkF7eTya6RPxXeJCqCJGHuCJ4GiRVLzkTXBAJMu2qaMWPrS7AANYqdq6vcBcBUdJCVVFceUvJFjaPdGZ2y9WACViL4L'
    v, k = deserialize(m.serialize(XPRV))
    assert v == XPRV and k.secret == m.secret and k.chain == m.chain
    return True
