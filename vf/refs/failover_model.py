"""Executable model of provider failover (property C20). stdlib only, never imports bitcoinlib.

A query is sent to providers one after the other.

* Providers are visited in non-increasing priority (ties in any order), each at most once.
* A provider that cannot be asked at all (no such method / no url / api key missing: kind 'nomethod') is passed
  over silently: it is neither a result nor an error.
* A provider that raises or answers empty (False) is skipped and recorded in `errors`.
* A provider that returns anything else ('ok' or 'malformed' - the service layer is not required to validate)
  is recorded in `results`.
* The walk stops as soon as `max_providers` results were collected ("enough"), or as soon as the number of
  recorded errors reaches `max_errors` ("limit"), or when every provider was visited ("exhausted").
* Outcome: with at least one result the answer is the answer of one of the result providers (after a "limit"
  stop the query may alternatively fail); with no result the query fails - it never returns a value.
* results / errors describe this walk only (nothing is left from an earlier query).

`judge` compares an observed walk with the model and returns a list of discrepancy codes (empty = conforms).
"""

ANSWERING = ('ok', 'malformed')
FAILING = ('exc', 'empty')
SILENT = ('nomethod',)
KINDS = ANSWERING + FAILING + SILENT


def walk(order, kinds, max_providers, max_errors, limit_checked_after=FAILING):
    """Deterministic walk over provider ids in `order`.

    `limit_checked_after`: kinds of failure after which the error limit is evaluated. The model proper uses
    FAILING; ('exc',) is a named variant used only for attributing one known deviation (feature ablation).
    """
    visited, results, errors = [], [], []
    stop = 'exhausted'
    for p in order:
        k = kinds[p]
        if k in SILENT:
            continue
        visited.append(p)
        if k in ANSWERING:
            results.append(p)
            if len(results) >= max_providers:
                stop = 'enough'
                break
        elif k in FAILING:
            errors.append(p)
            if k in limit_checked_after and len(errors) >= max_errors:
                stop = 'limit'
                break
        else:
            raise ValueError('unknown kind %r' % (k,))
    return {'visited': visited, 'results': results, 'errors': errors, 'stop': stop,
            'must_fail': not results, 'may_fail': (not results) or stop == 'limit'}


def order_discrepancies(visited, priorities, kinds):
    """Is `visited` a prefix of some non-increasing-priority ordering of the askable providers?"""
    out = []
    if len(set(visited)) != len(visited):
        out.append('provider-visited-twice')
    for a, b in zip(visited, visited[1:]):
        if priorities[a] < priorities[b]:
            out.append('priority-order-ascending')
            break
    askable = [p for p in priorities if kinds[p] not in SILENT]
    unvisited = [p for p in askable if p not in visited]
    if visited and unvisited:
        low = min(priorities[p] for p in visited)
        if any(priorities[u] > low for u in unvisited) and 'priority-order-ascending' not in out:
            out.append('higher-priority-provider-passed-over')
    for p in visited:
        if kinds.get(p) in SILENT:
            out.append('unaskable-provider-called')
            break
    return out


def judge(priorities, kinds, max_providers, max_errors, obs, limit_checked_after=FAILING):
    """obs = {'visited': [pid..] (providers whose method was actually invoked, in order),
              'failed': bool, 'answer_of': [pid..] providers whose answer the returned value is identical to
                                          (empty list when the value is nobody's answer),
              'results': set/list of pids or None, 'errors': set/list of pids or None}"""
    out = list(order_discrepancies(obs['visited'], priorities, kinds))
    visited = [p for p in obs['visited'] if kinds.get(p) not in SILENT]
    rest = sorted((p for p in priorities if p not in visited), key=lambda p: -priorities[p])
    exp = walk(visited + rest, kinds, max_providers, max_errors, limit_checked_after)
    same_walk = True
    if len(visited) > len(exp['visited']):
        same_walk = False
        out.append('continued-after-%s' % ('error-limit' if exp['stop'] == 'limit' else 'enough-results'))
        full = walk(visited, kinds, 10 ** 9, 10 ** 9)     # bookkeeping of what was really asked
    elif exp['visited'][:len(visited)] != visited or len(visited) < len(exp['visited']):
        same_walk = False
        out.append('gave-up-before-all-providers-were-asked')
        full = walk(visited, kinds, 10 ** 9, 10 ** 9)
    else:
        full = exp
    if obs['failed']:
        if same_walk and not exp['may_fail']:
            out.append('failed-although-a-provider-answered')
        elif not same_walk and full['results'] and 'gave-up-before-all-providers-were-asked' not in out:
            pass
    else:
        if not obs['answer_of']:
            out.append('returned-a-value-no-provider-gave')
        elif not set(obs['answer_of']) & set(full['results']):
            out.append('returned-the-answer-of-a-non-result-provider')
    if obs.get('results') is not None and set(obs['results']) != set(full['results']):
        out.append('results-bookkeeping-differs')
    if obs.get('errors') is not None and set(obs['errors']) != set(full['errors']):
        out.append('errors-bookkeeping-differs')
    return out, exp


def selfcheck():
    pr = {'a': 30, 'b': 20, 'c': 10, 'd': 10}
    k = {'a': 'exc', 'b': 'empty', 'c': 'ok', 'd': 'ok'}
    w = walk(['a', 'b', 'c', 'd'], k, 1, 4)
    assert (w['visited'], w['results'], w['errors'], w['stop']) == (['a', 'b', 'c'], ['c'], ['a', 'b'], 'enough'), w
    w = walk(['a', 'b', 'c', 'd'], k, 1, 2)
    assert (w['visited'], w['stop'], w['must_fail']) == (['a', 'b'], 'limit', True), w
    w = walk(['a', 'b', 'c', 'd'], k, 1, 2, limit_checked_after=('exc',))
    assert (w['visited'], w['stop'], w['must_fail']) == (['a', 'b', 'c'], 'enough', False), w
    w = walk(['a', 'b', 'd', 'c'], k, 2, 4)
    assert (w['results'], w['stop']) == (['d', 'c'], 'enough'), w
    k2 = {'a': 'exc', 'b': 'nomethod', 'c': 'exc', 'd': 'empty'}
    w = walk(['a', 'b', 'c', 'd'], k2, 1, 4)
    assert (w['visited'], w['errors'], w['stop'], w['must_fail']) == (['a', 'c', 'd'], ['a', 'c', 'd'], 'exhausted', True), w
    # judge: conforming observation
    d, _ = judge(pr, k, 1, 4, {'visited': ['a', 'b', 'd'], 'failed': False, 'answer_of': ['d'], 'results': ['d'], 'errors': ['a', 'b']})
    assert d == [], d
    # ascending order
    d, _ = judge(pr, k, 1, 4, {'visited': ['c'], 'failed': False, 'answer_of': ['c'], 'results': ['c'], 'errors': []})
    assert 'higher-priority-provider-passed-over' in d, d
    d, _ = judge(pr, k, 1, 4, {'visited': ['b', 'a', 'c'], 'failed': False, 'answer_of': ['c'], 'results': ['c'], 'errors': ['a', 'b']})
    assert 'priority-order-ascending' in d, d
    # invented value / value at the limit
    d, _ = judge(pr, k, 1, 2, {'visited': ['a', 'b'], 'failed': False, 'answer_of': [], 'results': [], 'errors': ['a', 'b']})
    assert d == ['returned-a-value-no-provider-gave'], d
    d, _ = judge(pr, k, 1, 2, {'visited': ['a', 'b', 'c'], 'failed': False, 'answer_of': ['c'], 'results': ['c'], 'errors': ['a', 'b']})
    assert d == ['continued-after-error-limit'], d
    d, _ = judge(pr, k, 1, 2, {'visited': ['a', 'b', 'c'], 'failed': False, 'answer_of': ['c'], 'results': ['c'], 'errors': ['a', 'b']},
                 limit_checked_after=('exc',))
    assert d == [], d
    # failing although somebody answered, stale bookkeeping, early stop
    d, _ = judge(pr, k, 1, 4, {'visited': ['a', 'b', 'c'], 'failed': True, 'answer_of': [], 'results': ['c'], 'errors': ['a', 'b']})
    assert d == ['failed-although-a-provider-answered'], d
    d, _ = judge(pr, k, 1, 4, {'visited': ['a', 'b', 'c'], 'failed': False, 'answer_of': ['c'], 'results': ['c'], 'errors': ['a', 'b', 'd']})
    assert d == ['errors-bookkeeping-differs'], d
    d, _ = judge(pr, k, 1, 4, {'visited': ['a'], 'failed': True, 'answer_of': [], 'results': [], 'errors': ['a']})
    assert d == ['gave-up-before-all-providers-were-asked'], d
    d, _ = judge(pr, k, 2, 4, {'visited': ['a', 'b', 'c'], 'failed': False, 'answer_of': ['c'], 'results': ['c'], 'errors': ['a', 'b']})
    assert d == ['gave-up-before-all-providers-were-asked'], d
    # limit stop with a result in hand: either outcome conforms
    k3 = {'a': 'ok', 'b': 'exc', 'c': 'exc', 'd': 'ok'}
    for failed, ans in ((True, []), (False, ['a'])):
        d, e = judge(pr, k3, 2, 2, {'visited': ['a', 'b', 'c'], 'failed': failed, 'answer_of': ans, 'results': ['a'], 'errors': ['b', 'c']})
        assert d == [] and e['stop'] == 'limit', (d, e)
    return True
