"""BIP39 reference (entropy <-> sentence, seed), written from the BIP text. stdlib only; never imports bitcoinlib.

Word lists are *data*: they are read from files given by the caller (the property module reads the lists bundled
with the repository and pins their digests in golden/wordlists.sha256), never through library code.

  sentence  = words[ 11-bit groups of ( ENT || first ENT/32 bits of SHA256(ENT) ) ]
  seed      = PBKDF2-HMAC-SHA512(password = NFKD(sentence) utf-8, salt = "mnemonic" + NFKD(passphrase) utf-8,
                                 2048 iterations, 64 bytes)

A sentence is written with single U+0020 separators in NFKD form (the ideographic space U+3000 used for Japanese
display is NFKD-equivalent to U+0020, so the seed is the same).
"""
import hashlib
import unicodedata

ENT_BYTES = (16, 20, 24, 28, 32)


class Bip39Error(ValueError):
    pass


def nfkd(s):
    return unicodedata.normalize('NFKD', s)


def parse_wordlist(raw):
    """bytes of a word-list file -> list of NFKD words (one per line; tolerates CRLF and a BOM)."""
    txt = raw.decode('utf-8')
    if txt.startswith('\ufeff'):
        txt = txt[1:]
    words = [nfkd(w.strip()) for w in txt.split('\n')]
    while words and words[-1] == '':
        words.pop()
    return words


def wordlist_problems(words):
    """Structural requirements of a BIP39 list; returns a list of problems (empty = fine)."""
    out = []
    if len(words) != 2048:
        out.append('%d words instead of 2048' % len(words))
    if len(set(words)) != len(words):
        out.append('duplicate words')
    if any((not w) or (' ' in w) or ('\u3000' in w) or w != w.strip() for w in words):
        out.append('empty word or word with white space')
    if any(not unicodedata.is_normalized('NFKD', w) for w in words):
        out.append('word not in NFKD form')
    return out


def checksum_bits(entropy):
    ent = len(entropy) * 8
    cs = ent // 32
    h = int.from_bytes(hashlib.sha256(entropy).digest(), 'big')
    return h >> (256 - cs), cs


def entropy_to_indices(entropy):
    entropy = bytes(entropy)
    if len(entropy) not in ENT_BYTES:
        raise Bip39Error('entropy must be 128..256 bits in steps of 32')
    c, cs = checksum_bits(entropy)
    v = (int.from_bytes(entropy, 'big') << cs) | c
    n = (len(entropy) * 8 + cs) // 11
    return [(v >> (11 * (n - 1 - i))) & 0x7ff for i in range(n)]


def to_mnemonic(entropy, words):
    return ' '.join(words[i] for i in entropy_to_indices(entropy))


def split_sentence(sentence):
    return [w for w in nfkd(sentence).split(' ') if w != '']


def to_entropy(sentence, words):
    """NFKD sentence -> entropy bytes. Raises Bip39Error for a word outside the list, a bad length or checksum."""
    toks = split_sentence(sentence)
    if len(toks) not in (12, 15, 18, 21, 24):
        raise Bip39Error('sentence must have 12/15/18/21/24 words')
    index = {w: i for i, w in enumerate(words)}
    v = 0
    for t in toks:
        if t not in index:
            raise Bip39Error('word not in list')
        v = (v << 11) | index[t]
    cs = len(toks) * 11 // 33
    ent = (v >> cs).to_bytes((len(toks) * 11 - cs) // 8, 'big')
    if checksum_bits(ent)[0] != v & ((1 << cs) - 1):
        raise Bip39Error('checksum mismatch')
    return ent


def is_valid(sentence, words):
    try:
        to_entropy(sentence, words)
        return True
    except Bip39Error:
        return False


def to_seed(sentence, passphrase=''):
    return hashlib.pbkdf2_hmac('sha512', nfkd(sentence).encode('utf-8'),
                               b'mnemonic' + nfkd(passphrase).encode('utf-8'), 2048, 64)


# ----------------------------------------------------------------------------------------------- self-check
# Published vectors: trezor/python-mnemonic vectors.json (passphrase "TREZOR") and the Japanese vector of
# bip32JP/bip32JP.github.io test_JP_BIP39.json (NFKD-sensitive passphrase, ideographic-space separators).
_EN = [
    ('00000000000000000000000000000000',
     'abandon abandon abandon abandon abandon abandon abandon abandon abandon abandon abandon about',
     'c55257c360c07c72029aebc1b53c05ed0362ada38ead3e3e9efa3708e53495531f09a6987599d18264c1e1c92f2cf141630c7a3c4ab7c81b2f001698e7463b04'),
    ('7f7f7f7f7f7f7f7f7f7f7f7f7f7f7f7f',
     'legal winner thank year wave sausage worth useful legal winner thank yellow',
     '2e8905819b8723fe2c1d161860e5ee1830318dbf49a83bd451cfb8440c28bd6fa457fe1296106559a3c80937a1c1069be3a3a5bd381ee6260e8d9739fce1f607'),
    ('80808080808080808080808080808080',
     'letter advice cage absurd amount doctor acoustic avoid letter advice cage above',
     'd71de856f81a8acc65e6fc851a38d4d7ec216fd0796d0a6827a3ad6ed5511a30fa280f12eb2e47ed2ac03b5c462a0358d18d69fe4f985ec81778c1b370b652a8'),
    ('ffffffffffffffffffffffffffffffff',
     'zoo zoo zoo zoo zoo zoo zoo zoo zoo zoo zoo wrong',
     'ac27495480225222079d7be181583751e86f571027b0497b5b5d11218e0a8a13332572917f0f8e5a589620c6f15b11c61dee327651a14c34e18231052e48c069'),
    ('000000000000000000000000000000000000000000000000',
     'abandon abandon abandon abandon abandon abandon abandon abandon abandon abandon abandon abandon abandon abandon abandon abandon abandon agent',
     '035895f2f481b1b0f01fcf8c289c794660b289981a78f8106447707fdd9666ca06da5a9a565181599b79f53b844d8a71dd9f439c52a3d7b3e8a79c906ac845fa'),
    ('0000000000000000000000000000000000000000000000000000000000000000',
     'abandon abandon abandon abandon abandon abandon abandon abandon abandon abandon abandon abandon abandon abandon abandon abandon abandon abandon abandon abandon abandon abandon abandon art',
     'bda85446c68413707090a52022edd26a1c9462295029f2e60cd7c4f2bbd3097170af7a4d73245cafa9c3cca8d561a7c3de6f5d4a10be8ed2a5e608d68f92fcc8'),
    ('ffffffffffffffffffffffffffffffffffffffffffffffffffffffffffffffff',
     'zoo zoo zoo zoo zoo zoo zoo zoo zoo zoo zoo zoo zoo zoo zoo zoo zoo zoo zoo zoo zoo zoo zoo vote',
     'dd48c104698c30cfe2b6142103248622fb7bb0ff692eebb00089b32d22484e1613912f0a5b694407be899ffd31ed3992c456cdf60f5d4564b8ba3f05a69890ad'),
    ('9e885d952ad362caeb4efe34a8e91bd2',
     'ozone drill grab fiber curtain grace pudding thank cruise elder eight picnic',
     '274ddc525802f7c828d8ef7ddbcdc5304e87ac3535913611fbbfa986d0c9e5476c91689f9c8a54fd55bd38606aa6a8595ad213d4c9c9f9aca3fb217069a41028'),
]
_JP_PASS = '\u334d\u30ac\u30d0\u30f4\u30a1\u3071\u3070\u3050\u309e\u3061\u3062\u5341\u4eba\u5341\u8272'   # as published (not normalised)
_JP_SEED0 = ('a262d6fb6122ecf45be09c50492b31f92e9beb7d9a845987a02cefda57a15f9c'
             '467a17872029a9e92299b5cbdf306e3a0ee620245cbd508959b6cb7ca637bd55')


def selfcheck(english=None, japanese=None, repo_vectors=None):
    """`english`/`japanese`: parsed word lists (needed for the sentence vectors); `repo_vectors`: the content of the
    repository's tests/mnemonics_tests.json (validates this oracle only)."""
    # seed derivation does not need a word list
    for ent, sent, seed in _EN:
        assert to_seed(sent, 'TREZOR').hex() == seed, 'seed vector %s' % ent
    # normalisation: composed, decomposed and compatibility forms give one seed
    s = _EN[0][1]
    assert 'caf\u00e9' != 'cafe\u0301' and to_seed(s, 'caf\u00e9') == to_seed(s, 'cafe\u0301')
    assert to_seed(s, '\uff21') == to_seed(s, 'A') and to_seed(s, 'a') != to_seed(s, 'A')
    assert to_seed(s.replace(' ', '\u3000'), '') == to_seed(s, '')
    if english is not None:
        assert not wordlist_problems(english), wordlist_problems(english)
        assert english[0] == 'abandon' and english[3] == 'about' and english[2047] == 'zoo'
        for ent, sent, seed in _EN:
            e = bytes.fromhex(ent)
            assert to_mnemonic(e, english) == sent, 'sentence vector %s' % ent
            assert to_entropy(sent, english) == e
        bad = _EN[0][1].rsplit(' ', 1)[0] + ' abandon'
        assert not is_valid(bad, english) and not is_valid(_EN[0][1] + ' x', english)
        assert not is_valid(_EN[0][1].replace('about', 'abouz'), english)
        # exactly 2048/16 = 128 of the 2048 last words are valid for a 12-word prefix
        pre = _EN[1][1].rsplit(' ', 1)[0]
        assert sum(is_valid(pre + ' ' + w, english) for w in english) == 128
    if japanese is not None:
        assert not wordlist_problems(japanese), wordlist_problems(japanese)
        jp = to_mnemonic(bytes(16), japanese)
        assert jp.split(' ')[0] == nfkd('\u3042\u3044\u3053\u304f\u3057\u3093') and jp.split(' ')[11] == nfkd('\u3042\u304a\u305e\u3089')
        assert to_seed(jp.replace(' ', '\u3000'), _JP_PASS).hex() == _JP_SEED0, 'japanese NFKD vector'
    if repo_vectors is not None:
        n = 0
        for lang, vs in repo_vectors.items():
            if lang != 'english' or english is None:
                continue
            for v in vs:
                if v[0]:
                    e = bytes.fromhex(v[0])
                    assert to_mnemonic(e, english) == v[1] and to_entropy(v[1], english) == e
                assert to_seed(v[1], v[4] if len(v) > 4 else 'TREZOR').hex() == v[2]
                n += 1
        assert n >= 20
    return True
