"""Anchor reach map: which functions of the property's anchor files actually executed in this worker.

Uses sys.monitoring (PY_START) with its own tool id; code objects outside the anchor files are DISABLEd at
their first event so the overhead stays at a few percent.
"""
import sys
import os
import collections


class Reach:
    TOOL = 3  # sys.monitoring.PROFILER_ID=2, OPTIMIZER_ID=5; 3 is free

    def __init__(self, repo_dir, anchors):
        self.prefixes = tuple(os.path.join(repo_dir, a) for a in anchors)
        self.repo_dir = repo_dir
        self._counts = collections.Counter()
        self.active = False

    def start(self):
        mon = getattr(sys, 'monitoring', None)
        if mon is None:
            return
        try:
            mon.use_tool_id(self.TOOL, 'vf-reach')
        except ValueError:
            return
        counts = self._counts
        prefixes = self.prefixes
        cut = len(self.repo_dir) + 1
        DISABLE = mon.DISABLE

        def on_start(code, offset):
            fn = code.co_filename
            if fn.startswith(prefixes):
                counts[fn[cut:] + ':' + code.co_qualname] += 1
                return None
            return DISABLE

        mon.register_callback(self.TOOL, mon.events.PY_START, on_start)
        mon.set_events(self.TOOL, mon.events.PY_START)
        self.active = True

    def stop(self):
        if not self.active:
            return
        mon = sys.monitoring
        mon.set_events(self.TOOL, 0)
        mon.register_callback(self.TOOL, mon.events.PY_START, None)
        mon.free_tool_id(self.TOOL)
        self.active = False

    def counts(self):
        return dict(self._counts)
