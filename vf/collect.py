"""Collector: what a shard observed. Serialised to JSON and merged by the runner.

Monitors record and continue; nothing here raises into library code.
"""
import hashlib
import json
import collections

MAX_WITNESS_PER_KEY = 3
MAX_SAMPLES = 12


def jsonable(x, depth=0):
    if depth > 8:
        return repr(x)[:200]
    if isinstance(x, (bytes, bytearray)):
        return {'hex': bytes(x).hex()} if len(x) <= 4096 else {'hex_prefix': bytes(x[:64]).hex(), 'len': len(x)}
    if isinstance(x, bool) or x is None:
        return x
    if isinstance(x, int):
        return x if -2 ** 63 <= x < 2 ** 63 else {'int': str(x)}
    if isinstance(x, float):
        return x
    if isinstance(x, str):
        return x if len(x) <= 20000 else x[:20000] + '...'
    if isinstance(x, dict):
        return {str(k): jsonable(v, depth + 1) for k, v in x.items()}
    if isinstance(x, (list, tuple, set, frozenset)):
        seq = list(x)
        if isinstance(x, (set, frozenset)):
            seq = sorted(seq, key=repr)
        return [jsonable(v, depth + 1) for v in seq]
    try:
        import numpy
        if isinstance(x, numpy.integer):
            return int(x)
    except Exception:
        pass
    return repr(x)[:500]


def unjson(x):
    """Inverse of jsonable for the {'hex':..}/{'int':..} wrappers."""
    if isinstance(x, dict):
        if set(x) == {'hex'}:
            return bytes.fromhex(x['hex'])
        if set(x) == {'int'}:
            return int(x['int'])
        return {k: unjson(v) for k, v in x.items()}
    if isinstance(x, list):
        return [unjson(v) for v in x]
    return x


def digest(obj):
    return hashlib.sha256(json.dumps(jsonable(obj), sort_keys=True, default=repr).encode()).hexdigest()[:16]


class Collector:
    def __init__(self, prop_id, tier, seed):
        self.prop_id = prop_id
        self.tier = tier
        self.seed = seed
        self.evaluations = 0
        self.classes = collections.Counter()
        self.nontrivial = set()
        self.samples = []
        self._sample_classes = set()
        self.probes = collections.Counter()
        self.required = {}
        self.violations = {}       # key -> {'count': n, 'witnesses': [..]}
        self.unkeyed = []          # violations with no mechanism key
        self.unkeyed_count = 0
        self.unkeyed_hist = collections.Counter()
        self.inconclusive = []
        self.extra = {}
        self.anchors = collections.Counter()

    # ---- cases
    def case(self, cls, nontrivial=None, sample=None, n=1):
        """Count one executed case of input class `cls`. `nontrivial` (any jsonable) is the identity under
        the property's non-triviality rule; None = trivial."""
        self.evaluations += n
        self.classes[str(cls)] += n
        if nontrivial is not None:
            self.nontrivial.add(digest(nontrivial))
        if sample is not None and str(cls) not in self._sample_classes and len(self.samples) < MAX_SAMPLES:
            self._sample_classes.add(str(cls))
            self.samples.append({'class': str(cls), 'case': jsonable(sample)})

    def probe(self, name, n=1):
        self.probes[name] += n

    def require(self, name, minimum=1):
        """Declare a deciding probe: if it saw fewer than `minimum` evaluations the run is inconclusive."""
        self.required[name] = max(self.required.get(name, 0), minimum)

    def note_inconclusive(self, reason):
        if len(self.inconclusive) < 20:
            self.inconclusive.append(str(reason)[:500])

    # ---- violations
    def violation(self, key, desc, case=None, observed=None, expected=None):
        """Record a property violation. `key` is a mechanism key (string) assigned by a classifier predicate
        of the property module, or None when no predicate recognises the deviation."""
        rec = {'key': key, 'desc': str(desc)[:600], 'case': jsonable(case), 'observed': jsonable(observed),
               'expected': jsonable(expected)}
        if key is None:
            self.unkeyed_count += 1
            self.unkeyed_hist[str(desc)[:90]] += 1
            if len(self.unkeyed) < 10:
                self.unkeyed.append(rec)
            return
        ent = self.violations.setdefault(key, {'count': 0, 'witnesses': []})
        ent['count'] += 1
        if len(ent['witnesses']) < MAX_WITNESS_PER_KEY:
            ent['witnesses'].append(rec)

    def dump(self):
        return {
            'prop_id': self.prop_id, 'evaluations': self.evaluations, 'classes': dict(self.classes),
            'nontrivial': sorted(self.nontrivial), 'samples': self.samples, 'probes': dict(self.probes),
            'required': self.required, 'violations': self.violations, 'unkeyed': self.unkeyed,
            'unkeyed_count': self.unkeyed_count, 'unkeyed_hist': dict(self.unkeyed_hist.most_common(40)), 'inconclusive': self.inconclusive, 'extra': jsonable(self.extra),
            'anchors': dict(self.anchors),
        }
