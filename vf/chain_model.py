"""Model blockchain owned by the harness + the provider client that serves it to bitcoinlib.services.

The model is the single owner of every value the wallet monitors compare against: which outpoints exist, who
they pay, their value, confirmations and whether they are spent.  `broadcast` validates every transaction the
library tries to publish with the independent spend verifier (vf.refs.tx.verify_input) against the model's UTXO
set: unknown / already spent outpoints, value creation and invalid signatures are refused and recorded.

Faults selectable at run time: fail (raise), lag (answer from the state k snapshots ago), empty.
"""
import copy
import types
import hashlib

from vf.refs import tx as rtx
from vf.refs import chain as rchain


class Rejected(Exception):
    pass


class Chain:
    def __init__(self):
        self.utxos = {}      # (txid hex, n) -> dict(address, value, height, spent_by, script)
        self.height = 100
        self.counter = 0
        self.txs = {}        # txid -> raw bytes of broadcast transactions
        self.broadcasts = []  # dicts: txid, raw, accepted, reason
        self.snapshots = []
        self.faults = {'send': None, 'getutxos': None, 'lag': 0, 'estimatefee': None, 'blockcount': None}
        self.fee_per_kb = 20000
        self.calls = []      # (method, arg summary)

    # ------------------------------------------------------------ harness side
    def snapshot(self):
        self.snapshots.append((self.height, copy.deepcopy(self.utxos)))
        if len(self.snapshots) > 12:
            self.snapshots.pop(0)

    def script_for_address(self, address, network):
        for r in rchain.decode_address(address):
            if network in r['networks']:
                return r['script']
        raise ValueError('address %s is not an address of %s' % (address, network))

    def fund(self, address, value, network, confirmed=True, n=None, same_tx_as=None):
        """Create a UTXO. `same_tx_as` = an existing outpoint: the new output belongs to the same funding transaction
        (same txid, next free output index, same height) - real funding transactions often pay a wallet more than once."""
        self.counter += 1
        if same_tx_as is not None and same_tx_as in self.utxos:
            txid = same_tx_as[0]
            n = max(k[1] for k in self.utxos if k[0] == txid) + 1
            h = self.utxos[same_tx_as]['height']
            self.utxos[(txid, n)] = {'address': address, 'value': int(value), 'height': h, 'spent_by': None,
                                     'script': self.script_for_address(address, network), 'network': network}
            return txid, n
        txid = hashlib.sha256(b'vf-model-funding-%d' % self.counter).hexdigest()
        n = self.counter % 3 if n is None else n
        self.utxos[(txid, n)] = {'address': address, 'value': int(value), 'height': self.height if confirmed else 0,
                                 'spent_by': None, 'script': self.script_for_address(address, network), 'network': network}
        return txid, n

    def mine(self, blocks=1):
        self.height += blocks
        for u in self.utxos.values():
            if not u['height']:
                u['height'] = self.height

    def confirmations(self, u, height=None):
        height = self.height if height is None else height
        return 0 if not u['height'] else height - u['height'] + 1

    def unspent(self, addresses=None):
        return {k: v for k, v in self.utxos.items() if v['spent_by'] is None and (addresses is None or v['address'] in addresses)}

    def view(self):
        """(height, utxos) as the provider currently reports them (lag fault = older snapshot)."""
        lag = self.faults.get('lag') or 0
        if lag and self.snapshots:
            return self.snapshots[max(0, len(self.snapshots) - lag)]
        return self.height, self.utxos

    def validate(self, raw, network):
        """Consensus-style acceptance test. Returns parsed tx; raises Rejected(reason)."""
        try:
            p = rtx.parse(raw)
        except Exception as e:
            raise Rejected('unparsable: %r' % (e,))
        if not p['ins'] or not p['outs']:
            raise Rejected('no inputs or outputs')
        seen = set()
        total_in = 0
        for idx, i in enumerate(p['ins']):
            op = (i['txid'][::-1].hex(), i['n'])
            if op in seen:
                raise Rejected('duplicate input %s:%d' % op)
            seen.add(op)
            u = self.utxos.get(op)
            if u is None:
                raise Rejected('unknown outpoint %s:%d' % op)
            if u['spent_by'] is not None:
                raise Rejected('outpoint %s:%d already spent by %s' % (op[0], op[1], u['spent_by']))
            r = rtx.verify_input(p, idx, u['script'], u['value'])
            if not r.ok:
                raise Rejected('input %d is not a valid spend of %s:%d (%s): %s' % (idx, op[0], op[1], r.kind, r.reason))
            total_in += u['value']
        total_out = 0
        for o in p['outs']:
            if o['value'] < 0:
                raise Rejected('negative output')
            total_out += o['value']
        if total_out > total_in:
            raise Rejected('outputs %d exceed inputs %d' % (total_out, total_in))
        return p, total_in - total_out

    def broadcast(self, raw, network):
        txid = None
        try:
            p, fee = self.validate(raw, network)
        except Rejected as e:
            self.broadcasts.append({'txid': None, 'raw': raw.hex(), 'accepted': False, 'reason': str(e)})
            raise
        txid = rtx.txid(p)
        for i in p['ins']:
            self.utxos[(i['txid'][::-1].hex(), i['n'])]['spent_by'] = txid
        for n, o in enumerate(p['outs']):
            addr = rchain.address_for_script(network, o['script'])
            self.utxos[(txid, n)] = {'address': addr, 'value': o['value'], 'height': 0, 'spent_by': None,
                                     'script': o['script'], 'network': network}
        self.txs[txid] = raw
        self.broadcasts.append({'txid': txid, 'raw': raw.hex(), 'accepted': True, 'reason': '', 'fee': fee})
        return txid


CHAIN = Chain()


def make_client_module():
    """Provider module registered as bitcoinlib.services.vfmodel (class ModelClient)."""
    from bitcoinlib.services.baseclient import BaseClient, ClientError

    class ModelClient(BaseClient):
        def __init__(self, network, base_url, denominator, *args):
            super().__init__(network, 'vfmodel', base_url, denominator, *args)

        def _fault(self, name):
            f = CHAIN.faults.get(name)
            if f == 'fail':
                raise ClientError('vfmodel: injected failure in %s' % name)
            return f

        def getutxos(self, address, after_txid='', limit=20):
            CHAIN.calls.append(('getutxos', address))
            if self._fault('getutxos') == 'empty':
                return []
            height, utxos = CHAIN.view()
            res = []
            for (txid, n), u in utxos.items():
                if u['address'] == address and u['spent_by'] is None and u['network'] == self.network.name:
                    res.append({'address': address, 'txid': txid, 'confirmations': CHAIN.confirmations(u, height),
                                'output_n': n, 'input_n': 0, 'block_height': u['height'] or None, 'fee': None, 'size': 0,
                                'value': u['value'], 'script': u['script'].hex(), 'date': None})
            res.sort(key=lambda r: (-r['confirmations'], r['txid'], r['output_n']))
            if after_txid:
                ids = [r['txid'] for r in res]
                if after_txid in ids:
                    res = res[len(ids) - ids[::-1].index(after_txid):]
            return res[:limit]

        def getbalance(self, addresslist):
            CHAIN.calls.append(('getbalance', len(addresslist)))
            height, utxos = CHAIN.view()
            return sum(u['value'] for u in utxos.values() if u['address'] in addresslist and u['spent_by'] is None)

        def sendrawtransaction(self, rawtx):
            CHAIN.calls.append(('sendrawtransaction', rawtx[:16]))
            self._fault('send')
            raw = bytes.fromhex(rawtx) if isinstance(rawtx, str) else bytes(rawtx)
            try:
                txid = CHAIN.broadcast(raw, self.network.name)
            except Rejected as e:
                raise ClientError('vfmodel: broadcast refused: %s' % e)
            return {'txid': txid, 'response_dict': {'txid': txid}}

        def estimatefee(self, blocks):
            CHAIN.calls.append(('estimatefee', blocks))
            self._fault('estimatefee')
            return CHAIN.fee_per_kb

        def blockcount(self):
            self._fault('blockcount')
            return CHAIN.view()[0]

        def mempool(self, txid=''):
            return [t for t, raw in CHAIN.txs.items() if not txid or t == txid]

    m = types.ModuleType('bitcoinlib.services.vfmodel')
    m.ModelClient = ModelClient
    return m


def install(networks=('bitcoin', 'testnet', 'litecoin', 'bitcoinlib_test', 'regtest', 'litecoin_testnet', 'dogecoin', 'testnet4', 'signet',
                      'litecoin_legacy', 'dogecoin_testnet')):
    """Write providers.json (one model provider per network) and register the provider module. Returns CHAIN."""
    import os
    import json
    import bitcoinlib
    from bitcoinlib import services
    data_dir = os.environ['BCL_DATA_DIR']
    prov = {'vfmodel_' + nw: {'provider': 'vfmodel', 'network': nw, 'client_class': 'ModelClient', 'provider_coin_id': '',
                              'url': 'local', 'api_key': '', 'priority': 10, 'denominator': 1, 'network_overrides': None,
                              'timeout': 0} for nw in networks}
    with open(os.path.join(data_dir, 'providers.json'), 'w') as f:
        json.dump(prov, f)
    services.vfmodel = make_client_module()
    # hard guarantee: no socket is ever opened by a wallet workload
    import socket

    def _no_network(*a, **k):
        raise OSError('vf: network access attempted during an offline workload')
    socket.socket.connect = _no_network
    return CHAIN
