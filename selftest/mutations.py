#!/venv/bin/python
"""Monitor validation: apply one realistic semantic break to a scratch copy of the repository, run the property's
quick check against the copy (VERIF_REPO) and expect exit 1 with a violation that is NOT an open known finding.

usage: selftest/mutations.py [--only C07] [--name substring] [--jobs N] [--scale X]
The scratch copy lives under /tmp/vf-mut-<pid> and is removed afterwards.
"""
import os
import re
import sys
import json
import shutil
import argparse
import subprocess

HERE = os.path.dirname(os.path.dirname(os.path.abspath(__file__)))
REPO = os.environ.get('VERIF_REPO', '/repo')

# (property, name, file, old, new)  - `old` must occur exactly once unless count given
M = [
    ('C01', 'bip143-hashsequence-for-all-types', 'bitcoinlib/transactions.py',
     "            if (hash_type & 0x1f) != SIGHASH_SINGLE and (hash_type & 0x1f) != SIGHASH_NONE:\n                hash_sequence = double_sha256(sequence_serialized)",
     "            if True:\n                hash_sequence = double_sha256(sequence_serialized)"),
    ('C01', 'legacy-preimage-uses-locking-script-for-p2sh', 'bitcoinlib/transactions.py',
     "                if i.script_type == 'p2sh_multisig':\n                    r += varstr(i.redeemscript)",
     "                if i.script_type == 'p2sh_multisig' and len(self.inputs) < 3:\n                    r += varstr(i.redeemscript)"),
    ('C01', 'bip143-amount-of-first-input', 'bitcoinlib/transactions.py',
     "varstr(self.inputs[sign_id].redeemscript) + int(self.inputs[sign_id].value).to_bytes(8, 'little')",
     "varstr(self.inputs[sign_id].redeemscript) + int(self.inputs[0].value).to_bytes(8, 'little')"),
    ('C02', 'verify-stops-after-first-valid-signature', 'bitcoinlib/transactions.py',
     "        while sigs_verified < self.sigs_required:\n            if key_n >= len(self.keys):",
     "        while sigs_verified < min(1, self.sigs_required):\n            if key_n >= len(self.keys):"),
    ('C02', 'verify-ignores-locktime', 'bitcoinlib/transactions.py',
     "            hash_outputs + self.locktime.to_bytes(4, 'little') + hash_type.to_bytes(4, 'little')",
     "            hash_outputs + (0).to_bytes(4, 'little') + hash_type.to_bytes(4, 'little')"),
    ('C07', 'recipient-short-paid-by-one-when-many-outputs', 'bitcoinlib/wallets.py',
     "                value = value_to_satoshi(o[1], network=transaction.network)\n                amount_total_output += value",
     "                value = value_to_satoshi(o[1], network=transaction.network) - (1 if len(output_arr) > 3 else 0)\n                amount_total_output += value"),
    ('C07', 'min-confirms-ignored-in-selection', 'bitcoinlib/wallets.py',
     "            selected_utxos = self.select_inputs(amount_total_output + fee_estimate, transaction.network.dust_amount,\n                                                input_key_id, account_id, network, min_confirms, max_utxos, False)",
     "            selected_utxos = self.select_inputs(amount_total_output + fee_estimate, transaction.network.dust_amount,\n                                                input_key_id, account_id, network, 0, max_utxos, False)"),
    ('C08', 'spent-flag-not-set-after-send', 'bitcoinlib/wallets.py',
     "                for u in utxos:\n                    u.spent = True\n\n            self.hdwallet._commit()\n            self.hdwallet._balance_update(network=self.network.name)",
     "                for u in utxos[:(0 if inp.index_n else None)]:\n                    u.spent = True\n\n            self.hdwallet._commit()\n            self.hdwallet._balance_update(network=self.network.name)"),
    ('C08', 'rescan-resurrects-spent-outputs', 'bitcoinlib/wallets.py',
     "                        utxo_record.spent = bool(spent_in_db.count())",
     "                        utxo_record.spent = False"),
    ('C09', 'change-chain-index-reused', 'bitcoinlib/wallets.py',
     "            if prevkey:\n                address_index = prevkey.address_index + 1",
     "            if prevkey:\n                address_index = prevkey.address_index + (1 if not change or prevkey.address_index < 2 else 0)"),
    ('C09', 'coin-type-of-dogecoin-changed', 'bitcoinlib/data/networks.json',
     '"bip44_cointype": 3,', '"bip44_cointype": 5,'),
    ('C10', 'multisig-address-from-unsorted-keys-for-change-chain', 'bitcoinlib/wallets.py',
     "        redeemscript = Script(script_types=['multisig'], keys=public_key_list,\n                              sigs_required=self.multisig_n_required).serialize()",
     "        redeemscript = Script(script_types=['multisig'], keys=public_key_list[::-1] if (change and address_index) else public_key_list,\n                              sigs_required=self.multisig_n_required).serialize()"),
    ('C10', 'send-skips-verification', 'bitcoinlib/wallets.py',
     "        if not self.verified and not self.verify():\n            self.error = \"Cannot verify transaction\"\n            return None",
     "        if not self.verified and not self.verify() and not self.inputs[0].signatures:\n            self.error = \"Cannot verify transaction\"\n            return None"),
    ('C18', 'compactsize-boundary-moved', 'bitcoinlib/encoding.py',
     "    if inp < 0xfd:\n        return inp.to_bytes(1, 'little')", "    if inp <= 0xfd:\n        return inp.to_bytes(1, 'little')"),
    ('C18', 'pushdata1-threshold', 'bitcoinlib/scripts.py',
     "    if len(data) <= 75:", "    if len(data) <= 76:"),
    ('C18', 'negative-script-number-sign', 'bitcoinlib/scripts.py',
     "    if negative:\n        return -num", "    if negative and len(encoded) < 4:\n        return -num"),
]


def apply_mutation(copy, rel, old, new):
    p = os.path.join(copy, rel)
    s = open(p).read()
    if s.count(old) != 1:
        return 'pattern occurs %d times' % s.count(old)
    open(p, 'w').write(s.replace(old, new))
    return None


def main():
    ap = argparse.ArgumentParser()
    ap.add_argument('--only')
    ap.add_argument('--name')
    ap.add_argument('--jobs', default='8')
    ap.add_argument('--scale', default='0.5')
    ap.add_argument('--extra', help='json file with additional mutations [[prop,name,file,old,new],...]')
    a = ap.parse_args()
    muts = list(M)
    if a.extra:
        muts += [tuple(x) for x in json.load(open(a.extra))]
    results = []
    for prop, name, rel, old, new in muts:
        if a.only and prop != a.only:
            continue
        if a.name and a.name not in name:
            continue
        copy = '/tmp/vf-mut-%d' % os.getpid()
        shutil.rmtree(copy, ignore_errors=True)
        subprocess.check_call(['git', '-C', REPO, 'worktree', 'add', '-q', '--detach', copy, 'HEAD'])
        try:
            err = apply_mutation(copy, rel, old, new)
            if err:
                results.append((prop, name, 'NOT-APPLIED ' + err))
                print(prop, name, 'NOT-APPLIED', err)
                continue
            env = dict(os.environ, VERIF_REPO=copy, VERIF_JOBS=a.jobs, VERIF_SCALE=a.scale)
            p = subprocess.run([os.path.join(HERE, 'check'), prop], env=env, stdout=subprocess.PIPE, stderr=subprocess.STDOUT, cwd=HERE)
            out = p.stdout.decode(errors='replace')
            viol = [l for l in out.splitlines() if l.startswith('VIOLATION')]
            keys = [l.strip() for l in out.splitlines() if l.strip().startswith('key=')][:3]
            verdict = 'CAUGHT' if p.returncode == 1 and viol else ('MISSED exit=%d' % p.returncode)
            results.append((prop, name, verdict))
            print(prop, name, verdict, '|', ' || '.join(k[:140] for k in keys))
            sys.stdout.flush()
        finally:
            subprocess.call(['git', '-C', REPO, 'worktree', 'remove', '--force', copy])
            shutil.rmtree(copy, ignore_errors=True)
    missed = [r for r in results if r[2] != 'CAUGHT']
    print('caught %d / %d' % (len(results) - len(missed), len(results)))
    return 1 if missed else 0


if __name__ == '__main__':
    sys.exit(main())
