from bitcoinlib.wallets import Wallet
from bitcoinlib.keys import HDKey
from bitcoinlib.scripts import Script
import hashlib
k1 = HDKey(network='bitcoinlib_test'); k2 = HDKey(network='bitcoinlib_test')
pm2 = k2.public_master_multisig(witness_type='segwit')
w = Wallet.create('ms2', [k1, pm2], sigs_required=2, network='bitcoinlib_test', witness_type='segwit')
kb = w.get_key(witness_type='p2sh-segwit')
print(kb.path, kb.address)
def addr_for(branch):
    p1 = k1.subkey_for_path("m/48'/9999999'/0'/1'/0/0").public_byte
    p2 = k2.subkey_for_path("m/48'/9999999'/0'/%s'/0/0" % branch).public_byte
    from bitcoinlib.keys import Address
    keys = sorted([p1, p2])
    red = Script(script_types=['multisig'], keys=[__import__('bitcoinlib').keys.Key(x) for x in keys], sigs_required=2).serialize()
    return Address(hashlib.sha256(red).digest(), script_type='p2sh_p2wsh', witness_type='p2sh-segwit', network='bitcoinlib_test', encoding='base58').address if False else red.hex()
# compare public keys in the wallet's redeemscript
from bitcoinlib.db import DbKeyMultisigChildren
ch = w.session.query(DbKeyMultisigChildren).filter_by(parent_id=kb.key_id).all()
pubs = [w.session.query(__import__('bitcoinlib').db.DbKey).filter_by(id=c.child_id).one() for c in ch]
for p in pubs: print(' child', p.path, p.public.hex(), 'cosigner', p.cosigner_id)
print('expected k2 1-branch', k2.subkey_for_path("m/48'/9999999'/0'/1'/0/0").public_hex)
print('k2 2-branch        ', k2.subkey_for_path("m/48'/9999999'/0'/2'/0/0").public_hex)
